"""C02 - magic-number linter flags exactly the non-allowed literals outside exemptions.

Generator (vf/gen/c02.py, vf/render/c02_programs.py): programs built from slot templates; every literal is planted in a
typed slot and recorded as (file, line, text, exempt-position?). Oracle: expected multiset {(file, line, value) : slot not
exempt and value not in allowed_numbers}, value read from the literal text by an independent reader
(vf/oracle/c02_literals.py); observed = `thailint magic-numbers --format json`, value read back from the message.
Delta law: the same program is linted with allowed+{v} and allowed-{v}.

Known deviations of the tool are modelled explicitly (DEVIATIONS): a mismatch is a KNOWN finding ("dev:<name>") only if a
minimal set of listed deviations explains the observation exactly; anything left over is reported under its own signature.
"""
from __future__ import annotations

import itertools
import re
from collections import Counter, defaultdict

from vf import runner
from vf.engine import Case, Failure, h, live_first, deviation_sets
from vf.gen import c02 as gen
from vf.oracle import c02_literals as lit
from vf.project import Project
from vf.render import c02_programs as rp

ID = "C02"
TECHNIQUE = ("Hypothesis-generated slot-template programs (py/ts/js/rs) with literals of every documented form planted at "
             "recorded positions vs. a by-construction expected multiset (file, line, value); allowed_numbers add/remove "
             "delta law; explicit deviation model for known defects")
RULE = (
    "case = 1-2 files of one language (module constants, enums, classes/impls, functions with nested blocks; ~45 statement "
    "templates per language, each hole filled with an int/float/hex/octal/binary/underscore/suffixed literal, optionally "
    "under unary minus; booleans, digit strings, comments, digit identifiers as bait; documented exempt positions: UPPER "
    "constant, const/static item, ts enum member, small int in range()/enumerate(), string repetition, #[test]/#[cfg(test)] "
    "code, test-file and constants-file names) + a configuration (allowed_numbers: default | subset of present values, "
    "negatives and absent values | strict | empty | without 0/1; max_small_integer default|1..20) + a delta value; the file "
    "set is linted 3 times (allowed, allowed+{v}, allowed-{v}). Non-trivial: >= 1 expected violation and >= 1 literal that is "
    "exempt or allowed. Distinct = (language, multiset of slot kinds, multiset of literal forms)."
)
ASSUMPTIONS = [
    "constant definitions are generated only as NAME[: type] = <literal or -literal> with a multi-letter UPPER_CASE name (no expressions, collections)",
    "range()/enumerate()/string-repetition slots hold a bare non-negative integer literal as a direct argument/operand",
    "a literal under unary minus: -v allowed => must not be reported; v allowed => either outcome accepted; else reported as v or -v",
    "files stay below the content heuristics for 'definition files' (<= 6 module-level UPPER numeric constants, <= 1 int dict key per dict)",
    "Rust enum discriminants, tuple indexes (t.0), BigInt, complex and legacy-octal literals are not generated (docs do not say whether they count)",
    "test files are only the documented name patterns in the project root (no tests/ directories); Rust has no file-name exemption",
    "values compare numerically (1000.0 == 1000), as the allow-list is a set of numbers",
    "in-process CLI (click CliRunner) equals a fresh process; cross-checked on the first cases of every run",
]
BUDGET_S = {"quick": 110, "thorough": 1500}

RULE_ID = "magic-numbers.numeric-literal"
MSG = re.compile(r"^Magic number (\S+) should be a named constant$")
DOC_DEFAULT = (-1, 0, 1, 2, 3, 4, 5, 10, 100, 1000)  # docs/magic-numbers-linter.md, three places
CODE_EXTRA_DEFAULT = (21, 22, 80, 443, 3000, 5000, 8080, 8443)  # src/linters/magic_numbers/config.py (deviation default-ports)
TS_TEST_SUBSTRINGS = (".test.", ".spec.", "test_", "_test.", "/tests/", "/test/")

# known deviations of the implementation from the statement/docs; each corresponds to one signature "dev:<name>" in
# known/C02.json. A deviation is only *accepted* when listed there (otherwise it is reported as a violation).
# Order = preference when more than one minimal set explains an observation (entries that are pinned by thai-lint's own
# tests or have no small repair come first, so that repairing a later one never leaves its signature behind).
DEVIATIONS = (
    "default-ports",          # default allow-list in code has 8 more numbers than the documented default
    "neg-allowed",            # all: -v is judged as v, so an allowed negative number is still reported
    "ts-testfile-substring",  # ts/js: any path containing "test_" etc. counts as a test file (latest_value.ts)
    "rs-attr-contains-test",  # rs: any attribute containing "test" (#[cfg(not(test))]) marks a fn as test code
    "rs-test-attr-comment",   # rs: a comment between #[test] and fn hides the test attribute
    "py-enumerate-kw",        # py: enumerate(xs, start=7) is reported, enumerate(xs, 7) is not
    "py-const-neg",           # py: UPPER = -40 is reported (parent is UnaryOp, not Assign)
    "py-bool",                # py: True/False are reported once 1/0 are not allowed
    "rs-hex-fsuffix",         # rs: hex literal whose digits end in f32/f64 loses them as a "type suffix"
    "ts-hex-e",               # ts/js: a hex literal containing the digit e/E is sent to float() and dropped
)
DEVIATIONS = tuple(live_first("C02", DEVIATIONS))  # still-known deviations are tried first, repaired ones only classify regressions


def _in(x, allowed) -> bool:
    return any(x == a for a in allowed)


def allowed_set(cfg_allowed, devs):
    if cfg_allowed is None:
        return list(DOC_DEFAULT) + (list(CODE_EXTRA_DEFAULT) if "default-ports" in devs else [])
    return list(cfg_allowed)


def tool_file_exempt(slot_or_bait, devs):
    if slot_or_bait["file_exempt"]:
        return True
    if "ts-testfile-substring" in devs and slot_or_bait["lang"] in ("ts", "js"):
        return any(s in slot_or_bait["file"] for s in TS_TEST_SUBSTRINGS)
    return False


def judge_slot(s, cfg, devs):
    """-> (status, accepted message values); status in must | may | mustnot."""
    A = allowed_set(cfg["allowed"], devs)
    msi = cfg["msi"] if cfg["msi"] is not None else 10
    v = s["value"]
    lang = s["lang"]
    # --- value as the (deviating) tool reads it
    if "ts-hex-e" in devs and lang in ("ts", "js") and lit.is_hex(s["text"]) and "e" in s["text"].lower():
        return ("mustnot", ())
    if "rs-hex-fsuffix" in devs and lang == "rs" and lit.is_hex(s["text"]) and s["text"].endswith(("f32", "f64")):
        rest = s["text"][:-3].replace("_", "")
        if rest.lower() == "0x":
            return ("mustnot", ())
        v = int(rest, 16)
    # --- exemptions
    if tool_file_exempt(s, devs):
        return ("mustnot", ())
    in_test = s["in_test_scope"]
    if "rs-attr-contains-test" in devs and s["tool_test_scope"]:
        in_test = True
    if "rs-test-attr-comment" in devs and not s["tool_test_scope"]:
        in_test = False
    if in_test:
        return ("mustnot", ())
    pos = s["pos_exempt"]
    if pos == "const" and not ("py-const-neg" in devs and lang == "py" and s["neg"]):
        return ("mustnot", ())
    if pos in ("enum", "strrep"):
        return ("mustnot", ())
    if pos in ("range", "enumerate", "enumerate-kw") and not ("py-enumerate-kw" in devs and pos == "enumerate-kw"):
        if isinstance(v, int) and not s["neg"] and 0 <= v <= msi:
            return ("mustnot", ())
    # --- ordinary position: the allow-list decides
    cv = lit.canon(v)
    if not s["neg"]:
        return ("mustnot", ()) if _in(v, A) else ("must", (cv,))
    if _in(-v, A):
        if "neg-allowed" in devs and not _in(v, A):
            return ("must", (cv,))
        return ("mustnot", ())
    if _in(v, A):
        return ("may", (cv, -cv))
    return ("must", (cv, -cv))


def judge_bait(b, cfg, devs):
    if "py-bool" in devs and b["lang"] == "py" and not tool_file_exempt(b, devs):
        A = allowed_set(cfg["allowed"], devs)
        if not _in(1 if b["bait"] == "True" else 0, A):
            return ("must", (b["bait"],))
    return ("mustnot", ())


def match(slots, baits, observed, cfg, devs):
    """Compare observations with the model under `devs`.
    observed: Counter {(file, line, value)}.  -> list of residual items (empty = agreement)."""
    by_line = defaultdict(list)
    for s in slots:
        st_, acc = judge_slot(s, cfg, devs)
        by_line[(s["file"], s["line"])].append({"status": st_, "accept": acc, "slot": s, "used": False})
    for b in baits:
        st_, acc = judge_bait(b, cfg, devs)
        by_line[(b["file"], b["line"])].append({"status": st_, "accept": acc, "slot": b, "used": False})
    residual = []
    obs_by_line = defaultdict(list)
    for (f, ln, val), n in sorted(observed.items(), key=repr):
        obs_by_line[(f, ln)].extend([val] * n)
    for key, vals in obs_by_line.items():
        cands = by_line.get(key, [])
        # negative (or marker) values first: fewer slots accept them
        vals = sorted(vals, key=lambda x: (0 if isinstance(x, str) or x < 0 else 1, repr(x)))
        for val in vals:
            pick = None
            for pref in ("must", "may"):
                # among acceptable slots prefer the one with the smallest accept set (plain before negated)
                opts = [c for c in cands if not c["used"] and c["status"] == pref and any(_same(val, a) for a in c["accept"])]
                if opts:
                    pick = min(opts, key=lambda c: len(c["accept"]))
                    break
            if pick is not None:
                pick["used"] = True
            else:
                residual.append(("extra", key, val, cands))
    for key, cands in by_line.items():
        for c in cands:
            if c["status"] == "must" and not c["used"]:
                residual.append(("missing", key, c["accept"][0], [c]))
    return residual


def _same(a, b):
    if isinstance(a, str) or isinstance(b, str):
        return a == b
    return a == b


def active_devs(slots, baits, cfg):
    """Deviations that change the model of this case, alone or in the presence of the others."""
    def J(devs):
        return [judge_slot(s, cfg, devs) for s in slots] + [judge_bait(b, cfg, devs) for b in baits]

    base, full = J(()), J(DEVIATIONS)
    out = []
    for d in DEVIATIONS:
        if J((d,)) != base or J(tuple(x for x in DEVIATIONS if x != d)) != full:
            out.append(d)
    return out


FORM_CLASS = {"dec": "int", "us": "int", "hex": "int-radix", "oct": "int-radix", "bin": "int-radix", "suf": "int-suffixed",
              "us_suf": "int-suffixed", "hex_suf": "int-suffixed", "plain": "float", "exp": "float", "leaddot": "float",
              "pointzero": "float", "traildot": "float", "intf": "float-suffixed", "fsuf": "float-suffixed"}


def _slot_sig(lang, s, where, kind):
    return f"{lang}|{where}|{FORM_CLASS.get(s['form'], s['form'])}{'|negated' if s['neg'] else ''}|{kind}"


def _residual_sig(lang, item):
    """Categorical root-cause signature: language | position | literal class [| negated] | kind of mismatch."""
    kind, key, val, cands = item
    if kind == "missing":
        s = cands[0]["slot"]
        if "bait" in s:
            return f"{lang}|bool|missing"
        return _slot_sig(lang, s, s["pos_exempt"] or s["ctx"], "missing")
    if isinstance(val, str):
        return f"{lang}|bool|reported"
    # extra: which slot on that line does it look like?
    lits = [c for c in cands if "bait" not in c["slot"]]
    same_val = [c for c in lits if abs(lit.canon(c["slot"]["value"])) == abs(val)]
    if same_val:
        c = same_val[0]
        s = c["slot"]
        return _slot_sig(lang, s, s["exempt"] or s["ctx"], "reported-twice" if c["used"] else "reported")
    if lits:
        s = lits[0]["slot"]
        return _slot_sig(lang, s, s["pos_exempt"] or s["ctx"], "wrong-value")
    return f"{lang}|non-literal|reported"


def explain(lang, slots, baits, observed, cfg):
    """-> (known_devs, unknown residual items)"""
    res0 = match(slots, baits, observed, cfg, ())
    if not res0:
        return [], []
    act = active_devs(slots, baits, cfg)
    best = ((), res0)
    for devs in deviation_sets("C02", act):
        res = match(slots, baits, observed, cfg, devs)
        if not res:
            return list(devs), []
        if len(res) < len(best[1]):
            best = (devs, res)
    return list(best[0]), best[1]


# ------------------------------------------------------------------------------------ running


def build(case):
    lang = case["lang"]
    files, slots, baits, kinds = {}, [], [], []
    for i, f in enumerate(case["files"]):
        name = rp.file_name(lang, f["kind"], i)
        exempt = rp.FILE_KINDS[lang][f["kind"]][1]
        text, ss, bs = rp.render_file(lang, name, exempt, f["items"])
        files[name] = text
        slots.extend(ss)
        baits.extend(bs)
        kinds.append(f["kind"])
    for s in slots:
        s["value"] = lit.value_of(s["text"], lang)
    for name, text in files.items():
        if not rp.syntax_ok(lang, name, text):
            raise runner.HarnessError(f"generated file {name} is not valid {lang}:\n{text}")
    return files, slots, baits, kinds


def config_for(cfg, company_lang=None):
    sec = {}
    if cfg["allowed"] is not None:
        sec["allowed_numbers"] = list(cfg["allowed"])
    if cfg["msi"] is not None:
        sec["max_small_integer"] = cfg["msi"]
    if company_lang and cfg["allowed"] is not None:
        # the case's settings as a per-language section; the top level (which the company file of another language
        # follows) allows exactly one of the company file's two literals
        return {"magic-numbers": {"allowed_numbers": [COMPANY_ALLOWED], LANG_KEY[company_lang]: sec}}
    return {"magic-numbers": sec} if sec else None


LANG_KEY = {"py": "python", "ts": "typescript", "js": "javascript", "rs": "rust"}
COMPANY_ALLOWED, COMPANY_FLAGGED = 7771, 8881
COMPANY = {  # a file of ANOTHER language, named first on the command line: per-file settings must not leak to the next file
    "py": ("aaa_company.ts", f"function company(a: number) {{\n    const b = a + {COMPANY_ALLOWED};\n    return b * {COMPANY_FLAGGED};\n}}\n"),
    "ts": ("aaa_company.py", f"def company(a):\n    b = a + {COMPANY_ALLOWED}\n    return b * {COMPANY_FLAGGED}\n"),
    "js": ("aaa_company.rs", f"fn company(a: i64) -> i64 {{\n    let b = a + {COMPANY_ALLOWED};\n    b * {COMPANY_FLAGGED}\n}}\n"),
    "rs": ("aaa_company.py", f"def company(a):\n    b = a + {COMPANY_ALLOWED}\n    return b * {COMPANY_FLAGGED}\n"),
}


def observe(p, names, cfg, company_lang=None):
    """-> (Counter{(file, line, value)}, anomalies)"""
    company = company_lang if company_lang and cfg["allowed"] is not None else None
    p.set_config(config_for(cfg, company))
    if company:
        names = [COMPANY[company][0]] + list(names)
    r = runner.run_cli(["magic-numbers", "--format", "json", *names], cwd=p.root)
    anomalies = []
    if company and r.exit in (0, 1) and not r.exception:
        mine = sorted((v["line"], v["message"]) for v in r.violations if v["file_path"].rsplit("/", 1)[-1] == COMPANY[company][0])
        if mine != [(3, f"Magic number {COMPANY_FLAGGED} should be a named constant")]:
            anomalies.append({"company_file_misjudged": mine, "expected": [[3, COMPANY_FLAGGED]], "config": config_for(cfg, company)})
    if r.exit not in (0, 1) or r.swallowed or r.exception:
        return None, [{"exit": r.exit, "stderr": r.stderr[-400:], "swallowed": r.swallowed, "exc": r.exception}]
    obs = Counter()
    skip = COMPANY[company][0] if company else None
    for v in r.violations:
        if skip and v["file_path"].rsplit("/", 1)[-1] == skip:
            continue
        m = MSG.match(v["message"])
        if v["rule_id"] != RULE_ID or not m:
            anomalies.append({"unexpected_violation": v})
            continue
        obs[(v["file_path"].rsplit("/", 1)[-1], v["line"], parse_value(m.group(1)))] += 1
    if (r.exit == 1) != bool(r.violations):
        anomalies.append({"exit_vs_count": [r.exit, len(r.violations)]})
    return obs, anomalies


def parse_value(s):
    if s in ("True", "False", "true", "false"):
        return s
    if re.fullmatch(r"-?\d+", s):
        return int(s)
    try:
        return lit.canon(float(s))
    except ValueError:
        return "?" + s


def _num(val):
    """numeric value of an observed message value (bool markers count as 1/0) for the delta law"""
    if isinstance(val, str):
        return {"True": 1, "False": 0}.get(val)
    return val


def check(case) -> Case:
    lang = case["lang"]
    files, slots, baits, kinds = build(case)
    names = sorted(files)
    failures = []
    seen = set()

    def fail(sig, detail):
        if sig not in seen:
            seen.add(sig)
            failures.append(Failure(sig, detail))

    # generator self-consistency: the value the text was built from == the reference reader's value
    lits = []
    gen._walk_lits(case["files"], lits)
    for l in lits:
        if lit.value_of(l["text"], lang) != l["v"]:
            raise runner.HarnessError(f"literal reader disagrees with generator: {l}")

    cfg0 = case["cfg"]
    dv = case["delta"]
    base_allowed = cfg0["allowed"]
    eff = list(DOC_DEFAULT) if base_allowed is None else list(base_allowed)
    cfg_add = {"allowed": eff + [dv], "msi": cfg0["msi"]} if not _in(dv, eff) else None
    cfg_rem = {"allowed": [a for a in eff if a != dv], "msi": cfg0["msi"]} if _in(dv, eff) else None
    runs = [("base", cfg0)]
    if base_allowed is None:
        # the documented default written out: must behave like no allowed_numbers key at all; reference run for the delta law
        runs.append(("explicit-default", {"allowed": list(DOC_DEFAULT), "msi": cfg0["msi"]}))
    runs += ([("add", cfg_add)] if cfg_add else []) + ([("remove", cfg_rem)] if cfg_rem else [])
    observed = {}
    n_must = n_not = 0
    company = lang if case.get("company") else None
    with Project(dict(files, **({COMPANY[lang][0]: COMPANY[lang][1]} if company else {}))) as p:
        for tag, cfg in runs:
            obs, anomalies = observe(p, names, cfg, company)
            for a in anomalies:
                fail(f"{lang}|anomaly|{sorted(a)[0]}", {"run": tag, "config": cfg, **a, "files": files})
            if obs is None:
                continue
            observed[tag] = obs
            devs, residual = explain(lang, slots, baits, obs, cfg)
            for d in devs:
                fail(f"dev:{d}", {"run": tag, "config": cfg, "observed": _show(obs), "files": files})
            for item in residual[:3]:
                fail(_residual_sig(lang, item), {
                    "run": tag, "config": cfg, "kind": item[0], "file_line": list(item[1]), "value": item[2],
                    "slots_on_line": [{k: c["slot"].get(k) for k in ("text", "neg", "ctx", "exempt", "form", "bait")} | {"model": c["status"]} for c in item[3]],
                    "source_line": files[item[1][0]].split("\n")[item[1][1] - 1] if item[1][1] >= 1 else None,
                    "known_deviations_assumed": devs, "observed": _show(obs), "files": files})
    # delta law, on observations only (independent of the slot model)
    ref = "explicit-default" if base_allowed is None else "base"
    if "base" in observed and "explicit-default" in observed and observed["base"] != observed["explicit-default"]:
        diff = (observed["base"] - observed["explicit-default"]) + (observed["explicit-default"] - observed["base"])
        only_ports = not (observed["base"] - observed["explicit-default"]) and all(_num(k[2]) is not None and abs(_num(k[2])) in CODE_EXTRA_DEFAULT for k in diff)
        fail("dev:default-ports" if only_ports else f"{lang}|default-vs-documented-default|differ",
             {"no_allowed_numbers_key": _show(observed["base"]), "documented_default_written_out": _show(observed["explicit-default"]), "files": files})
    if ref in observed and "add" in observed:
        want = Counter({k: n for k, n in observed[ref].items() if _num(k[2]) != dv})
        if observed["add"] != want:
            fail(f"{lang}|delta-add|not-exact", {"added": dv, "base_config": dict(cfg0, allowed=eff), "base": _show(observed[ref]), "after": _show(observed["add"]),
                                                 "expected_after": _show(want), "files": files})
    if ref in observed and "remove" in observed:
        lost = observed[ref] - observed["remove"]
        gained = observed["remove"] - observed[ref]
        odd = [k for k in gained if _num(k[2]) is None or abs(_num(k[2])) != abs(dv)]
        if lost or odd:
            fail(f"{lang}|delta-remove|not-exact", {"removed": dv, "base_config": dict(cfg0, allowed=eff), "lost": _show(lost), "gained_other_values": [list(k) for k in odd], "files": files})
    for s in slots:
        st_, _ = judge_slot(s, cfg0, ())
        if st_ == "must":
            n_must += 1
        elif st_ == "mustnot":
            n_not += 1
    nontrivial = n_must >= 1 and n_not >= 1
    labels = label_case(case, slots, baits, kinds, n_must, runs)
    key = h([lang, sorted(Counter((s["exempt"] or s["ctx"]) for s in slots).items()), sorted(Counter(s["form"] + ("-neg" if s["neg"] else "") for s in slots).items())])
    return Case(key=key, nontrivial=nontrivial, labels=labels, failures=failures,
                sample={"lang": lang, "config": cfg0, "delta": dv, "files": files, "expected": sorted(
                    [[s["file"], s["line"], s["text"], judge_slot(s, cfg0, ())[0]] for s in slots])})


def _show(counter):
    return sorted([list(k) + [n] for k, n in counter.items()], key=repr)[:40]


def label_case(case, slots, baits, kinds, n_must, runs):
    lang = case["lang"]
    labels = [f"lang={lang}", f"files={len(kinds)}"]
    a = case["cfg"]["allowed"]
    labels.append("allowed=default" if a is None else ("allowed=empty" if not a else ("allowed=with-0-1" if (0 in a and 1 in a) else "allowed=without-0-or-1")))
    labels.append("msi=default" if case["cfg"]["msi"] is None else "msi=set")
    if case.get("company"):
        labels.append("per-language-section+company-file")
    labels.append("expected=" + ("0" if n_must == 0 else "1-3" if n_must <= 3 else "4-9" if n_must <= 9 else "10+"))
    for e in sorted({s["exempt"] for s in slots if s["exempt"]}):
        labels.append(f"exempt:{e}")
    for f in sorted({s["form"] for s in slots}):
        labels.append(f"form:{f}")
    for c in sorted({s["ctx"] for s in slots}):
        labels.append(f"ctx:{c}")
    if any(s["neg"] for s in slots):
        labels.append("has-negated-literal")
    if baits:
        labels.append("has-bool-bait")
    for k in kinds[1:]:
        labels.append(f"file:{k}")
    for tag, _ in runs[1:]:
        labels.append(f"delta:{tag}")
    return labels


def template_cells():
    """Every statement template of every language once, alone in a function of a plain file: first hole = a value that
    must be reported under the default configuration (or a value-dependent exemption's far side), other holes = an allowed
    value; and once more with the values swapped. No template is left to the draw."""
    cells = []
    for lang in ("py", "ts", "js", "rs"):
        for name, tpl in rp.TEMPLATES[lang].items():
            if name.startswith("bait_"):
                continue
            for swap in (False, True):
                lits = []
                for i, hole in enumerate(tpl.holes):
                    flagged = (i == 0) != swap
                    if hole == "flt":
                        lits.append({"text": "2.75" if flagged else "3.5", "form": "float", "neg": False, "v": 2.75 if flagged else 3.5})
                    else:
                        lits.append({"text": "37" if flagged else "10", "form": "dec", "neg": False, "v": 37 if flagged else 10})
                if swap and len(tpl.holes) < 2:
                    continue
                stt = {"t": name, "lits": lits}
                if tpl.kind == "b":
                    stt["body"] = []
                cells.append({"lang": lang, "files": [{"kind": "plain", "items": [{"k": "func", "body": [stt]}]}],
                              "cfg": {"allowed": None, "msi": None}, "delta": 37, "company": False})
    return cells


def run(ctx):
    ctx.explore(gen.cases(), check, max_examples=ctx.n(300, 5000))
    cells = template_cells()
    ctx.each(ctx.my_cells(cells), check, exhaustive_label="every statement template x (reported value first | allowed value first), default configuration")


def replay(case) -> Case:
    return check(case)
