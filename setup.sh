#!/bin/sh
# MANIFEST.setup_cmd: offline; verifies the interpreter and the packages the checks need.
HERE="$(cd "$(dirname "$0")" && pwd)"
cd "$HERE" || exit 2
/venv/bin/python -c "import hypothesis" 2>/dev/null || \
  /venv/bin/pip install --no-index --find-links /opt/veriftools/wheels hypothesis || exit 2
mkdir -p .deps evidence replays
/venv/bin/python -c "import sys; sys.path.insert(0,'.deps'); import atheris" 2>/dev/null || \
  /venv/bin/pip install -q --no-index --find-links /opt/veriftools/wheels --target .deps atheris \
  || echo "setup: atheris unavailable (C11 fuzz stage will be skipped)"
cd /tmp && PYTHONPATH="$HERE:/repo" /venv/bin/python -c "
from vf import runner
runner.init()
import hypothesis, click, yaml
print('setup ok: hypothesis', hypothesis.__version__)
" || exit 2
